(* Model/Aggregator.v -- src/cminx/aggregator.py: DocumentationAggregator as a state
   machine over the parse tree in ParseTreeWalker order.  Python object aliasing
   (documented list, class stack, definition stack, awaiting slot) is modelled with
   indices into the append-only documented list.  Python exceptions that escape the
   listener (CMakeSyntaxException, IndexError on an empty stack, TypeError/KeyError for
   the reflective process_generic_command hit) are the explicit Crash outcome. *)
From Coq Require Import String List NArith Bool Arith.
From CMinx Require Import Base.Str Model.Lexer Model.Parser Model.Writer Model.DocTypes.
Import ListNotations.

Record flags := {
  inc_function : bool; inc_macro : bool; inc_cpp_class : bool; inc_cpp_attr : bool;
  inc_cpp_constructor : bool; inc_cpp_member : bool; inc_ct_add_test : bool;
  inc_ct_add_section : bool; inc_add_test : bool; inc_option : bool }.

Definition default_flags : flags :=
  {| inc_function := true; inc_macro := true; inc_cpp_class := true; inc_cpp_attr := true;
     inc_cpp_constructor := true; inc_cpp_member := true; inc_ct_add_test := true;
     inc_ct_add_section := true; inc_add_test := true; inc_option := true |}.

(* DocumentationAggregator.clean_doc_lines (static, public) *)
Definition doc_lstrip_set : list char := [hash; lbr; rbr].   (* lstrip("#[]") *)
Definition doc_rstrip_set : list char := [hash; rbr].        (* rstrip("#]")  *)

Definition clean_line (num_spaces : nat) (line : str) : str :=
  let l1 := lstrip_set doc_lstrip_set (skipn num_spaces line) in
  match l1 with
  | a :: r => if (a =? 32)%N then r else l1
  | [] => []
  end.

Definition clean_doc_lines (lines : list str) : str :=
  let lastl := match last_opt lines with Some l => l | None => [] end in
  let num_spaces := length (take_while (fun c => negb (c =? 35)%N) lastl) in
  let cleaned := map (clean_line num_spaces) lines in
  let cleaned' := update_last (rstrip_set doc_rstrip_set) cleaned in
  let doc := join [nl] cleaned' in
  match doc with
  | a :: r => if (a =? 10)%N then r else doc
  | [] => []
  end.

Definition clean_doc_text (text : str) : str := clean_doc_lines (split_on nl text).

Inductive await :=
| AwNone
| AwTop (idx : nat)                         (* a TestDocumentation/SectionDocumentation in documented *)
| AwMethod (cidx : nat) (is_ctor : bool).   (* the newest constructor/member of class cidx *)

Record agg := {
  documented : list entry;
  origins : list bool;                (* ghost, parallel to documented: came from a doccomment *)
  class_stack : list (option nat);    (* documented_classes_stack, top first *)
  def_stack : list (option nat);      (* definition_command_stack, top first; None = (None, False) *)
  awaiting : await }.

Definition agg_init : agg :=
  {| documented := []; origins := []; class_stack := []; def_stack := []; awaiting := AwNone |}.

Inductive result (A : Type) :=
| Ok (a : A)
| Crash.
Arguments Ok {A} a.
Arguments Crash {A}.

Section Aggregator.
  Variable fl : flags.
  Variable trigger : str.                       (* kwargs_doc_trigger_string *)
  Variables strip_fn strip_mac strip_mem : str -> str.   (* re.sub(<regex>, "", p) *)

  Definition kw_name : str := s"NAME".
  Definition kw_expectfail : str := s"EXPECTFAIL".

  Definition append (e : entry) (docd : bool) (st : agg) : agg :=
    {| documented := documented st ++ [e]; origins := origins st ++ [docd];
       class_stack := class_stack st; def_stack := def_stack st; awaiting := awaiting st |}.

  Definition with_docs (f : list entry -> list entry) (st : agg) : agg :=
    {| documented := f (documented st); origins := origins st;
       class_stack := class_stack st; def_stack := def_stack st; awaiting := awaiting st |}.

  Definition with_class_stack (cs : list (option nat)) (st : agg) : agg :=
    {| documented := documented st; origins := origins st;
       class_stack := cs; def_stack := def_stack st; awaiting := awaiting st |}.

  Definition with_def_stack (ds : list (option nat)) (st : agg) : agg :=
    {| documented := documented st; origins := origins st;
       class_stack := class_stack st; def_stack := ds; awaiting := awaiting st |}.

  Definition with_awaiting (a : await) (st : agg) : agg :=
    {| documented := documented st; origins := origins st;
       class_stack := class_stack st; def_stack := def_stack st; awaiting := a |}.

  (* process_function / process_macro *)
  Definition process_def (is_macro : bool) (c : cmd) (doc : str) (docd : bool) (st : agg)
    : result agg :=
    match singles c with
    | [] => Crash       (* CMakeSyntaxException *)
    | name :: ps =>
        let strip := if is_macro then strip_mac else strip_fn in
        let e := EFunction is_macro name doc (map strip ps) (contains trigger doc) in
        let idx := length (documented st) in
        let st1 := append e docd st in
        Ok (with_def_stack (Some idx :: def_stack st1) st1)
    end.

  Definition set_kwargs (e : entry) : entry :=
    match e with
    | EFunction m n d p _ => EFunction m n d p true
    | _ => e
    end.

  (* process_cmake_parse_arguments *)
  Definition process_cpa (st : agg) : agg :=
    match def_stack st with
    | Some idx :: _ => with_docs (update_nth idx set_kwargs) st
    | _ => st
    end.

  (* the NAME scan shared by ct_add_test / ct_add_section / add_test:
     None = NAME was the last argument (logged, no entry) *)
  Fixpoint scan_name (ps : list str) (name : str) : option str :=
    match ps with
    | [] => Some name
    | p :: r =>
        if str_eqb p kw_name then
          match r with
          | [] => None
          | n :: _ => scan_name r n
          end
        else scan_name r name
    end.

  (* the same loop, also remembering the index of the last NAME keyword (name_index) *)
  Fixpoint scan_name_idx (ps : list str) (i : nat) (cur : option nat * str)
    : option (option nat * str) :=
    match ps with
    | [] => Some cur
    | p :: r =>
        if str_eqb p kw_name then
          match r with
          | [] => None
          | n :: _ => scan_name_idx r (S i) (Some i, n)
          end
        else scan_name_idx r (S i) cur
    end.

  Definition has_expectfail (ps : list str) : bool :=
    existsb (fun p => str_eqb p kw_expectfail) ps.

  (* process_ct_add_test / process_ct_add_section *)
  Definition process_test (is_section : bool) (c : cmd) (doc : str) (docd : bool) (st : agg)
    : agg :=
    let ps := singles c in
    if Nat.ltb (length ps) 2 then st
    else match scan_name ps [] with
         | None => st
         | Some name =>
             let idx := length (documented st) in
             with_awaiting (AwTop idx)
               (append (ETest is_section name doc (has_expectfail ps) [] false) docd st)
         end.

  (* a value that starts and ends with a double quote (length >= 2) loses that surrounding pair
     (value[1:-1]); anything else stays as written.  Never fails (kept as an option for the
     callers' sake). *)
  Definition unquote (v : str) : option str :=
    match v with
    | a :: r =>
        if (a =? 34)%N
        then match last_opt r with
             | Some z => if (z =? 34)%N then Some (drop_last r) else Some v
             | None => Some v
             end
        else Some v
    | [] => Some v
    end.

  (* process_set *)
  Definition process_set (c : cmd) (doc : str) (docd : bool) (st : agg) : result agg :=
    match singles c with
    | [] => Ok st
    | name :: vals =>
        match vals with
        | [] => Ok (append (EVariable name doc VUnset None) docd st)
        | [v] =>
            match unquote v with
            | Some v' => Ok (append (EVariable name doc VString (Some v')) docd st)
            | None => Crash
            end
        | _ => Ok (append (EVariable name doc VList (Some (join (s" ") vals))) docd st)
        end
    end.

  Definition add_inner (name : str) (e : entry) : entry :=
    match e with
    | EClass n d su inner ct me at_ => EClass n d su (inner ++ [name]) ct me at_
    | _ => e
    end.

  (* process_cpp_class *)
  Definition process_class (c : cmd) (doc : str) (docd : bool) (st : agg) : agg :=
    match singles c with
    | [] => st
    | name :: supers =>
        let idx := length (documented st) in
        let st1 := append (EClass name doc supers [] [] [] []) docd st in
        let st2 := match class_stack st with
                   | Some cidx :: _ => with_docs (update_nth cidx (add_inner name)) st1
                   | _ => st1
                   end in
        with_class_stack (Some idx :: class_stack st2) st2
    end.

  Definition add_method (is_ctor : bool) (m : method) (e : entry) : entry :=
    match e with
    | EClass n d su inner ct me at_ =>
        if is_ctor then EClass n d su inner (ct ++ [m]) me at_
        else EClass n d su inner ct (me ++ [m]) at_
    | _ => e
    end.

  (* process_cpp_member / process_cpp_constructor *)
  Definition process_member (is_ctor : bool) (c : cmd) (doc : str) (docd : bool) (st : agg)
    : agg :=
    let ps := singles c in
    if Nat.ltb (length ps) 2 then st
    else match class_stack st with
         | [] => st
         | None :: _ => st
         | Some cidx :: _ =>
             let m := {| m_name := nth 0 ps []; m_doc := doc; m_parent := nth 1 ps [];
                         m_types := skipn 2 ps; m_params := []; m_ctor := is_ctor;
                         m_macro := false; m_docd := docd |} in
             with_awaiting (AwMethod cidx is_ctor)
               (with_docs (update_nth cidx (add_method is_ctor m)) st)
         end.

  Definition add_attr (a : attribute) (e : entry) : entry :=
    match e with
    | EClass n d su inner ct me at_ => EClass n d su inner ct me (at_ ++ [a])
    | _ => e
    end.

  (* process_cpp_attr *)
  Definition process_attr (c : cmd) (doc : str) (docd : bool) (st : agg) : agg :=
    let ps := singles c in
    if Nat.ltb (length ps) 2 then st
    else match class_stack st with
         | [] => st
         | None :: _ => st
         | Some cidx :: _ =>
             let a := {| a_name := nth 1 ps []; a_doc := doc; a_parent := nth 0 ps [];
                         a_default := nth_error ps 2; a_docd := docd |} in
             with_docs (update_nth cidx (add_attr a)) st
         end.

  (* [p for i, p in enumerate(params) if name_index < 0 or i not in (name_index, name_index + 1)] *)
  Definition drop_name_pair (idx : option nat) (ps : list str) : list str :=
    match idx with
    | None => ps
    | Some i => firstn i ps ++ skipn (i + 2) ps
    end.

  (* process_add_test *)
  Definition process_add_test (c : cmd) (doc : str) (docd : bool) (st : agg) : agg :=
    let ps := singles c in
    if Nat.ltb (length ps) 2 then st
    else match scan_name_idx ps 0 (None, []) with
         | None => st
         | Some (idx, name) => append (ECTest name doc (drop_name_pair idx ps)) docd st
         end.

  (* process_option *)
  Definition process_option (c : cmd) (doc : str) (docd : bool) (st : agg) : agg :=
    match singles c with
    | [name; help] => append (EOption name doc None help) docd st
    | [name; help; v] => append (EOption name doc (Some v) help) docd st
    | _ => st
    end.

  (* _argument_text: an argument as written, a parenthesised group with single spaces *)
  Fixpoint arg_written (a : arg) : str :=
    match a with
    | ASingle _ t => t
    | ACompound l => [lpar] ++ join (s" ") (map arg_written l) ++ [rpar]
    end.

  (* process_generic_command: the arguments in source order *)
  Definition process_generic (command : str) (c : cmd) (doc : str) (docd : bool) (st : agg)
    : agg :=
    append (EGeneric command doc (map arg_written (c_args c))) docd st.

  (* the process_* methods found by reflection (process_generic_command is the fallback,
     explicitly not a processor) *)
  Inductive handler :=
  | HFunction | HMacro | HCpa | HTest | HSection | HSet | HClass | HMember | HCtor
  | HAttr | HAddTest | HOption.

  Definition handler_table : list (str * handler) :=
    [ (s"function", HFunction); (s"macro", HMacro);
      (s"cmake_parse_arguments", HCpa); (s"ct_add_test", HTest);
      (s"ct_add_section", HSection); (s"set", HSet); (s"cpp_class", HClass);
      (s"cpp_member", HMember); (s"cpp_constructor", HCtor); (s"cpp_attr", HAttr);
      (s"add_test", HAddTest); (s"option", HOption) ].

  Fixpoint lookup {A} (k : str) (t : list (str * A)) : option A :=
    match t with
    | [] => None
    | (k', v) :: r => if str_eqb k k' then Some v else lookup k r
    end.

  (* getattr(self, f"process_{command}")(ctx, docstring) *)
  Definition run_handler (h : handler) (c : cmd) (doc : str) (docd : bool) (st : agg)
    : result agg :=
    match h with
    | HFunction => process_def false c doc docd st
    | HMacro => process_def true c doc docd st
    | HCpa => Ok (process_cpa st)
    | HTest => Ok (process_test false c doc docd st)
    | HSection => Ok (process_test true c doc docd st)
    | HSet => process_set c doc docd st
    | HClass => Ok (process_class c doc docd st)
    | HMember => Ok (process_member false c doc docd st)
    | HCtor => Ok (process_member true c doc docd st)
    | HAttr => Ok (process_attr c doc docd st)
    | HAddTest => Ok (process_add_test c doc docd st)
    | HOption => Ok (process_option c doc docd st)
    end.

  (* enterDocumented_command *)
  Definition enter_documented (doc_text : str) (c : cmd) (st : agg) : result agg :=
    let doc := clean_doc_text doc_text in
    let command := lower_ascii (c_name c) in
    match lookup command handler_table with
    | Some h => run_handler h c doc true st
    | None => Ok (process_generic command c doc true st)
    end.

  (* settings.input.__dict__[f"include_undocumented_{command}"]; None = KeyError *)
  Definition include_flag (h : handler) : option bool :=
    match h with
    | HFunction => Some (inc_function fl)
    | HMacro => Some (inc_macro fl)
    | HClass => Some (inc_cpp_class fl)
    | HAttr => Some (inc_cpp_attr fl)
    | HCtor => Some (inc_cpp_constructor fl)
    | HMember => Some (inc_cpp_member fl)
    | HTest => Some (inc_ct_add_test fl)
    | HSection => Some (inc_ct_add_section fl)
    | HAddTest => Some (inc_add_test fl)
    | HOption => Some (inc_option fl)
    | HCpa | HSet => None
    end.

  Definition upd_method (is_macro : bool) (extra : list str) (m : method) : method :=
    {| m_name := m_name m; m_doc := m_doc m; m_parent := m_parent m; m_types := m_types m;
       m_params := m_params m ++ extra; m_ctor := m_ctor m; m_macro := is_macro;
       m_docd := m_docd m |}.

  Definition upd_awaiting_entry (a : await) (is_macro : bool) (extra : list str)
             (docs : list entry) : list entry :=
    match a with
    | AwNone => docs
    | AwTop idx =>
        update_nth idx (fun e => match e with
                                 | ETest sec n d xf ps _ => ETest sec n d xf (ps ++ extra) is_macro
                                 | _ => e
                                 end) docs
    | AwMethod cidx is_ctor =>
        update_nth cidx (fun e => match e with
                                  | EClass n d su inner ct me at_ =>
                                      if is_ctor
                                      then EClass n d su inner (update_last (upd_method is_macro extra) ct) me at_
                                      else EClass n d su inner ct (update_last (upd_method is_macro extra) me) at_
                                  | _ => e
                                  end) docs
    end.

  Definition is_def_name (command : str) : bool :=
    str_eqb command (s"function") || str_eqb command (s"macro").

  (* enterCommand_invocation; consumed = the context was handled by enterDocumented_command *)
  Definition enter_command (consumed : bool) (c : cmd) (st : agg) : result agg :=
    let command := lower_ascii (c_name c) in
    if str_eqb command (s"cpp_class") && negb (inc_cpp_class fl) then
      Ok (with_class_stack (None :: class_stack st) st)
    else if str_eqb command (s"cpp_end_class") then
      match class_stack st with
      | [] => Crash       (* IndexError: pop from empty list *)
      | _ :: cs => Ok (with_class_stack cs st)
      end
    else if str_eqb command (s"cmake_parse_arguments") then
      Ok (process_cpa st)
    else if is_def_name command && (match awaiting st with AwNone => false | _ => true end) then
      let raw := singles c in
      let params := match awaiting st with
                    | AwMethod _ _ => map strip_mem raw
                    | _ => raw
                    end in
      let extra := if Nat.ltb 2 (length params) then skipn 2 params else [] in
      let st1 := with_docs (upd_awaiting_entry (awaiting st) (str_eqb command (s"macro")) extra) st in
      let st2 := with_awaiting AwNone st1 in
      (* a documented definition already pushed its frame in process_function/process_macro *)
      if consumed then Ok st2 else Ok (with_def_stack (None :: def_stack st2) st2)
    else if str_eqb command (s"endfunction") || str_eqb command (s"endmacro") then
      match def_stack st with
      | [] => Crash       (* IndexError: pop from empty list *)
      | _ :: ds => Ok (with_def_stack ds st)
      end
    else if negb (str_eqb command (s"set")) && negb consumed then
      match lookup command handler_table with
      | None => Ok st
      | Some h =>
          match include_flag h with
          | None => Crash       (* KeyError: include_undocumented_generic_command *)
          | Some true => run_handler h c [] false st
          | Some false =>
              if is_def_name command then Ok (with_def_stack (None :: def_stack st) st)
              else Ok st
          end
      end
    else Ok st.

  (* one top-level element of the parse tree, in walker order *)
  Definition agg_step (st : agg) (e : element) : result agg :=
    match e with
    | EDocCmd d c =>
        match enter_documented d c st with
        | Ok st1 => enter_command true c st1
        | Crash => Crash
        end
    | ECmd c => enter_command false c st
    | EDangling _ => Ok st      (* logged, ignored *)
    end.

  Fixpoint agg_run (st : agg) (es : list element) : result agg :=
    match es with
    | [] => Ok st
    | e :: r =>
        match agg_step st e with
        | Ok st1 => agg_run st1 r
        | Crash => Crash
        end
    end.

  (* enterDocumented_module *)
  Definition module_entry (text : str) : entry :=
    let cleaned := split_on nl (clean_doc_text text) in
    let first := match cleaned with l :: _ => l | [] => [] end in
    let name := strip_ws (replace_all module_kw [] first) in
    EModule name (join [nl] (tl cleaned)).

  Definition aggregate (f : cfile) : result agg :=
    let st0 := match f_module f with
               | Some t => append (module_entry t) true agg_init
               | None => agg_init
               end in
    agg_run st0 (f_elems f).

End Aggregator.
