(* Model/Walk.v -- src/cminx/__init__.py: document() and document_single_file() over an
   abstract file tree.  The order of a directory's children is the order in which the
   operating system lists them.  The result is the list of externally visible actions,
   output paths being relative to the output directory. *)
From Coq Require Import String List NArith Bool Arith.
From CMinx Require Import Base.Str Model.Writer Model.Path Model.Naming Model.Pipeline.
Import ListNotations.

Inductive node :=
| F (name : str) (content : list N)
| D (name : str) (children : list node).

Definition node_name (n : node) : str := match n with F nm _ => nm | D nm _ => nm end.

Inductive input_kind :=
| KMissing
| KFile (content : list N)
| KDir (children : list node).

Inductive action :=
| AMkDirs (rel : list str)                 (* os.makedirs(output/rel, exist_ok=True) *)
| AWrite (rel : list str) (content : str)  (* write_to_file(output/rel) *)
| APrint (content : str)                   (* print(content) : content followed by a newline *)
| AAbort (o : outcome)                     (* exception escaping document(): traceback, status 1 *)
| AExit255.                                (* exit(-1) *)

Record wsettings := {
  ws_out : bool;                 (* an output directory is configured *)
  ws_recursive : bool;
  ws_prefix : option str;
  ws_auto_exclude : bool;
  ws_sep : str;
  ws_ext_titles : bool;
  ws_ext_modules : bool }.

Definition lc_cmake_suffix (name : str) : bool := endswith cmake_ext name.   (* case-sensitive *)

Section Walk.
  Variable st : wsettings.
  Variable hdrs : list str.
  (* Documenter(file, title, module).process().to_text() *)
  Variable docfn : str -> str -> list N -> outcome.
  (* spec.match_file on the absolute path of the entry at this path relative to the input
     (directories with a trailing slash) *)
  Variable excl : list str -> bool -> bool.

  Definition rel_string (rel : list str) : str :=
    match rel with [] => [dot] | _ :: _ => join [slash] rel end.

  (* document_single_file for the file at rel ++ [name]; title_name = what the title is built from *)
  Definition doc_actions (prefix : option str) (title_name : str) (out_rel : list str)
             (name : str) (content : list N) : list action :=
    let '(title, modname) :=
      header_and_module prefix (ws_sep st) (ws_ext_titles st) (ws_ext_modules st) title_name in
    match docfn title modname content with
    | OOk text =>
        if ws_out st then [AMkDirs []; AWrite (out_rel ++ [stem name ++ s".rst"]) text]
        else [APrint (text ++ [nl])]
    | o => [AAbort o]
    end.

  (* index.rst of the directory at rel *)
  Definition index_text (prefix : str) (rel : list str) (subdirs files : list str) : str :=
    let title := match rel with
                 | [] => prefix
                 | _ :: _ => prefix ++ ws_sep st ++ rel_string rel
                 end in
    let entries :=
      (if ws_recursive st then map (fun d => Para (d ++ s"/index.rst")) subdirs else [])
      ++ map (fun f => Para (stem f)) (filter is_cmake_name files) in
    doc_text hdrs title [Dir (s"toctree") [] [(s"maxdepth", s"2")] entries].

  Definition file_entries (l : list node) : list (str * list N) :=
    flat_map (fun n => match n with F nm c => [(nm, c)] | D _ _ => [] end) l.

  (* a sub-directory survives pruning: not matched by a pattern and, with auto-exclusion,
     it directly contains a non-excluded file whose name ends in .cmake (case-sensitive) *)
  Definition keep_dir (rel : list str) (n : node) : bool :=
    match n with
    | F _ _ => false
    | D nm ch =>
        negb (excl (rel ++ [nm]) true)
        && (negb (ws_auto_exclude st)
            || existsb (fun c => match c with
                                 | F fn _ => lc_cmake_suffix fn && negb (excl (rel ++ [nm; fn]) false)
                                 | D _ _ => false
                                 end) ch)
    end.

  (* one os.walk step: (processed?, actions) *)
  Definition visit_dir (prefix : str) (rel : list str) (children : list node)
    : bool * list action :=
    let files := filter (fun f => negb (excl (rel ++ [fst f]) false)) (file_entries children) in
    (* with auto-exclusion, a directory without such a file is still processed when the walk
       is recursive: its index.rst is what links the pages of its sub-directories *)
    let processed :=
      negb (ws_auto_exclude st) || existsb (fun f => lc_cmake_suffix (fst f)) files
      || ws_recursive st in
    if processed then
      let subdirs := sort_by (fun x => x) (map node_name (filter (keep_dir rel) children)) in
      let sfiles := sort_by fst files in
      (true,
       (if ws_out st
        then [AMkDirs rel; AWrite (rel ++ [s"index.rst"]) (index_text prefix rel subdirs (map fst sfiles))]
        else [])
       ++ flat_map (fun f => if is_cmake_name (fst f)
                             then doc_actions (Some prefix) (rel_string (rel ++ [fst f])) rel (fst f) (snd f)
                             else []) sfiles)
    else (false, []).

  (* all os.walk steps of the pruned tree, in walk order *)
  Fixpoint visits_node (prefix : str) (rel : list str) (n : node) {struct n}
    : list (bool * list action) :=
    match n with
    | F _ _ => []
    | D nm ch =>
        if keep_dir rel n
        then visit_dir prefix (rel ++ [nm]) ch
             :: (fix go (l : list node) : list (bool * list action) :=
                   match l with
                   | [] => []
                   | c :: r => visits_node prefix (rel ++ [nm]) c ++ go r
                   end) ch
        else []
    end.

  Definition visits (prefix : str) (rel : list str) (children : list node)
    : list (bool * list action) :=
    flat_map (visits_node prefix rel) children.

  Fixpoint cut_at_abort (acts : list action) : list action :=
    match acts with
    | [] => []
    | AAbort o :: _ => [AAbort o]
    | AExit255 :: _ => [AExit255]
    | a :: r => a :: cut_at_abort r
    end.

  (* document(input_file, settings): base = os.path.basename(os.path.abspath(input_file)) *)
  Definition document (base : str) (kind : input_kind) : list action :=
    let isdir := match kind with KDir _ => true | _ => false end in
    if excl [] isdir then []
    else match kind with
         | KMissing => [AExit255]
         | KFile content =>
             cut_at_abort ((if ws_out st then [AMkDirs []] else [])
                           ++ doc_actions (ws_prefix st) base [] base content)
         | KDir children =>
             let prefix := match ws_prefix st with Some p => p | None => base end in
             let top := visit_dir prefix [] children in
             (* without --recursive only the input directory itself is visited *)
             cut_at_abort (if ws_recursive st
                           then flat_map snd (top :: visits prefix [] children)
                           else snd top)
         end.

End Walk.

(* several inputs on one command line: main() loops; an abort ends the process *)
Fixpoint run_inputs (runs : list (list action)) : list action :=
  match runs with
  | [] => []
  | acts :: r =>
      if existsb (fun a => match a with AAbort _ | AExit255 => true | _ => false end) acts
      then acts
      else acts ++ run_inputs r
  end.
