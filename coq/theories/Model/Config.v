(* Model/Config.v -- the settings layering of cminx.main(): a stack of confuse sources
   (command line > -s file > user config > packaged defaults), per-option validation
   against the template of config.py, the union rule for exclude patterns and the
   resolution of the output directory.  The option table, the defaults and the argparse
   table are not written here: they are translated from the source into Gen/ConfigData.v. *)
From Coq Require Import String List NArith Bool Arith.
From CMinx Require Import Base.Str Model.Path.
Import ListNotations.

(* a YAML value as far as the templates distinguish *)
Inductive yval :=
| YBool (b : bool)
| YStr (v : str)
| YInt (n : N)
| YNull
| YList (l : list yval)
| YMap (keys : list str).   (* a mapping; the templates only ever look at its keys *)

(* template types occurring in config_template() *)
Inductive oty :=
| TBool                        (* bool                       -> TypeTemplate(bool) *)
| TOptString (d : option str)  (* Optional(String(), default) *)
| TString (d : str)            (* "lit"                       -> String(default) *)
| TOptSeq                      (* Optional(list, default=())  -> TypeTemplate(Sequence) *)
| TStrSeq                      (* StrSeq() *)
| TOptFilename                 (* Optional(Filename(cwd=getcwd()) | Filename(in_source_dir=True)) *)
| TDict.                       (* TypeTemplate(dict) *)

Inductive source_kind := SrcArgs | SrcFile | SrcUser | SrcDefaults.

Record source := {
  src_kind : source_kind;
  src_vals : list (str * yval);     (* option path -> value *)
  src_dir : option str }.           (* directory of the file behind the source, if any *)

Inductive cli_action := AStore | AStoreTrue | AAppend | AVersion.
Record cli_arg := {
  a_flags : list str; a_positional : bool; a_dest : str; a_action : cli_action;
  a_default_none : bool }.

Fixpoint assoc {A} (k : str) (l : list (str * A)) : option A :=
  match l with
  | [] => None
  | (k', v) :: r => if str_eqb k k' then Some v else assoc k r
  end.

(* view.first(): the value in the highest-priority source that has the key *)
Fixpoint resolve (stack : list source) (key : str) : option (yval * source) :=
  match stack with
  | [] => None
  | src :: r => match assoc key (src_vals src) with
                | Some v => Some (v, src)
                | None => resolve r key
                end
  end.

(* the validated, converted value of an option *)
Inductive cval :=
| CBool (b : bool)
| CStr (v : str)
| CNone
| CStrs (l : list str)
| CDict.

Inductive cres :=
| COk (v : cval)
| CTypeError          (* confuse.ConfigTypeError *)
| CNotFound.          (* confuse.NotFoundError *)

Fixpoint all_strs (l : list yval) : option (list str) :=
  match l with
  | [] => Some []
  | YStr x :: r => option_map (cons x) (all_strs r)
  | _ :: _ => None
  end.

(* str.split() on Python whitespace *)
Fixpoint split_ws_go (x : str) (cur : str) : list str :=
  match x with
  | [] => match cur with [] => [] | _ :: _ => [rev cur] end
  | c :: r => if py_isspace c
              then match cur with [] => split_ws_go r [] | _ :: _ => rev cur :: split_ws_go r [] end
              else split_ws_go r (c :: cur)
  end.
Definition split_ws (x : str) : list str := split_ws_go x [].

Section Resolve.
  Variable cwd : str.
  Variable relative_to_config : bool.

  (* Filename.value for a relative path *)
  Definition resolve_filename (p : str) (src : source) : str :=
    if isabs p then normpath p
    else if relative_to_config then
      match src_dir src with
      | Some d => abspath cwd (join2 d p)
      | None => abspath cwd p
      end
    else abspath cwd (join2 cwd p).

  Definition convert (ty : oty) (found : option (yval * source)) : cres :=
    match ty, found with
    | TBool, Some (YBool b, _) => COk (CBool b)
    | TBool, Some _ => CTypeError
    | TBool, None => CNotFound
    | TOptString d, None | TOptString d, Some (YNull, _) =>
        COk (match d with Some x => CStr x | None => CNone end)
    | TOptString _, Some (YStr x, _) => COk (CStr x)
    | TOptString _, Some _ => CTypeError
    | TString d, None => COk (CStr d)
    | TString _, Some (YStr x, _) => COk (CStr x)
    | TString _, Some _ => CTypeError
    | TOptSeq, None | TOptSeq, Some (YNull, _) => COk (CStrs [])
    | TOptSeq, Some (YList _, _) | TOptSeq, Some (YStr _, _) => COk (CStrs [])  (* replaced by the union *)
    | TOptSeq, Some _ => CTypeError
    | TStrSeq, None => CNotFound
    | TStrSeq, Some (YStr x, _) => COk (CStrs (split_ws x))
    | TStrSeq, Some (YList l, _) =>
        match all_strs l with Some xs => COk (CStrs xs) | None => CTypeError end
    | TStrSeq, Some (YMap ks, _) => COk (CStrs ks)     (* StrSeq: list(value) of a mapping = its keys *)
    | TStrSeq, Some _ => CTypeError
    | TOptFilename, None | TOptFilename, Some (YNull, _) => COk CNone
    | TOptFilename, Some (YStr p, src) => COk (CStr (resolve_filename p src))
    | TOptFilename, Some _ => CTypeError
    | TDict, Some (YMap _, _) => COk CDict
    | TDict, Some _ => CTypeError
    | TDict, None => CNotFound
    end.

  Definition effective (stack : list source) (key : str) (ty : oty) : cres :=
    convert ty (resolve stack key).
End Resolve.

(* the exclude patterns of main(): for every source that sets input.exclude_filters (resolve(),
   highest priority first) the value must be a list of strings (null contributes nothing); the
   lists are concatenated.  None = ConfigTypeError *)
Definition items_of (v : yval) : option (list yval) :=
  match v with
  | YList l => match all_strs l with Some _ => Some l | None => None end
  | YNull => Some []
  | _ => None
  end.

Fixpoint all_contents (stack : list source) (key : str) : option (list yval) :=
  match stack with
  | [] => Some []
  | src :: r =>
      match assoc key (src_vals src) with
      | None => all_contents r key
      | Some v =>
          match items_of v, all_contents r key with
          | Some a, Some b => Some (a ++ b)
          | _, _ => None
          end
      end
  end.

(* settings["output"]["relative_to_config"].get(): raw truthiness of the first value *)
Definition truthy (v : yval) : bool :=
  match v with
  | YBool b => b
  | YStr x => negb (match x with [] => true | _ => false end)
  | YInt n => negb (n =? 0)%N
  | YNull => false
  | YList l => negb (match l with [] => true | _ => false end)
  | YMap ks => negb (match ks with [] => true | _ => false end)
  end.

Definition rel_to_config (stack : list source) : bool :=
  match resolve stack (s"output.relative_to_config") with
  | Some (v, _) => truthy v
  | None => false
  end.

(* the check main() makes itself after the template validation (repair of F27):
   isinstance(settings[rst][headers].get(), dict) -> ConfigTypeError.  view.get() without a
   template is the raw value of the highest-priority source that sets the option, so the check
   fails exactly when that value is a mapping (StrSeq alone would take its keys, see convert) *)
Definition headers_ok (stack : list source) : bool :=
  match resolve stack (s"rst.headers") with
  | Some (YMap _, _) => false
  | _ => true
  end.

(* every option of the template, resolved: None = main() raises *)
Fixpoint settings_of (cwd : str) (stack : list source) (tmpl : list (str * oty))
  : option (list (str * cval)) :=
  match tmpl with
  | [] => Some []
  | (k, ty) :: r =>
      match effective cwd (rel_to_config stack) stack k ty, settings_of cwd stack r with
      | COk v, Some rest => Some ((k, v) :: rest)
      | _, _ => None
      end
  end.

(* --- command line ------------------------------------------------------------- *)

Fixpoint find_flag (tbl : list cli_arg) (tok : str) : option cli_arg :=
  match tbl with
  | [] => None
  | a :: r => if mem_str tok (a_flags a) then Some a else find_flag r tok
  end.

Definition positional_dest (tbl : list cli_arg) : str :=
  match filter a_positional tbl with
  | a :: _ => a_dest a
  | [] => []
  end.

Record parsed := {
  p_stored : list (str * str);     (* dest -> last value (store) *)
  p_flags : list str;              (* dests of store_true flags seen *)
  p_appended : list (str * str);   (* dest, value in order (append) *)
  p_positional : list str }.

Definition parsed_empty : parsed :=
  {| p_stored := []; p_flags := []; p_appended := []; p_positional := [] |}.

(* argparse for this table, exact option strings with separate values;
   None = usage error (unknown option, missing value, no positional, or positionals that are
   not contiguous: the single nargs="+" positional takes the first run of them only).
   pst: 0 = no positional seen, 1 = inside the run, 2 = the run has ended *)
Fixpoint parse_go (tbl : list cli_arg) (toks : list str) (pst : nat) (acc : parsed)
  : option parsed :=
  let ended := match pst with 1 => 2 | n => n end in
  match toks with
  | [] => Some acc
  | t :: r =>
      match find_flag tbl t with
      | Some a =>
          match a_action a with
          | AStoreTrue =>
              parse_go tbl r ended
                       {| p_stored := p_stored acc; p_flags := p_flags acc ++ [a_dest a];
                          p_appended := p_appended acc; p_positional := p_positional acc |}
          | AStore =>
              match r with
              | v :: r' =>
                  if startswith (s"-") v then None
                  else parse_go tbl r' ended
                                {| p_stored := (a_dest a, v) :: p_stored acc; p_flags := p_flags acc;
                                   p_appended := p_appended acc; p_positional := p_positional acc |}
              | [] => None
              end
          | AAppend =>
              match r with
              | v :: r' =>
                  if startswith (s"-") v then None
                  else parse_go tbl r' ended
                                {| p_stored := p_stored acc; p_flags := p_flags acc;
                                   p_appended := p_appended acc ++ [(a_dest a, v)];
                                   p_positional := p_positional acc |}
              | [] => None
              end
          | AVersion => None
          end
      | None =>
          if startswith (s"-") t then None
          else match pst with
               | 2 => None
               | _ => parse_go tbl r 1
                               {| p_stored := p_stored acc; p_flags := p_flags acc;
                                  p_appended := p_appended acc;
                                  p_positional := p_positional acc ++ [t] |}
               end
      end
  end.

Definition parse_args (tbl : list cli_arg) (toks : list str) : option parsed :=
  match parse_go tbl toks 0 parsed_empty with
  | Some p => match p_positional p with [] => None | _ :: _ => Some p end
  | None => None
  end.

(* the namespace as the SrcArgs source: None-valued dests are skipped by set_args *)
Definition dedup_keep_first (l : list (str * str)) : list (str * str) :=
  fold_right (fun kv acc => kv :: filter (fun x => negb (str_eqb (fst x) (fst kv))) acc) [] l.

Definition args_source (tbl : list cli_arg) (p : parsed) : source :=
  let stored := map (fun kv => (fst kv, YStr (snd kv))) (dedup_keep_first (p_stored p)) in
  let flags := map (fun d => (d, YBool true)) (nodup_str (p_flags p)) in
  let app_dests := nodup_str (map fst (p_appended p)) in
  let appended := map (fun d => (d, YList (map (fun kv => YStr (snd kv))
                                               (filter (fun kv => str_eqb (fst kv) d) (p_appended p)))))
                      app_dests in
  {| src_kind := SrcArgs; src_vals := stored ++ flags ++ appended; src_dir := None |}.
