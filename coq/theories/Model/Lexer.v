(* Model/Lexer.v -- the lexer rules of src/cminx/parser/CMake.g4 with the semantics
   of ANTLR 4.7.2's LexerATNSimulator: longest match over all rules, earliest rule
   wins ties, a rule containing a non-greedy .*? accepts at its leftmost complete
   terminator, EOF inside Line_comment counts as one more matched symbol.
   A lexical error is a failure (the implementation raises, see documenter.py). *)
From Coq Require Import String List NArith Bool Arith.
From CMinx Require Import Base.Str.
Import ListNotations.

Inductive tk :=
| TLParen | TRParen | TModuleDoc | TDocstring | TDocStart | TBlockEnd | TIdent
| TUnquoted | TEscape | TQuoted | TBracketArg | TBracketComment | TLineComment
| TNewline | TSpace.

(* ANTLR token type numbers (CMake.tokens) *)
Definition kind_id (k : tk) : nat :=
  match k with
  | TLParen => 1 | TRParen => 2 | TModuleDoc => 3 | TDocstring => 4 | TDocStart => 5
  | TBlockEnd => 6 | TIdent => 7 | TUnquoted => 8 | TEscape => 9 | TQuoted => 10
  | TBracketArg => 11 | TBracketComment => 12 | TLineComment => 13 | TNewline => 14
  | TSpace => 15
  end.

Definition tk_eqb (a b : tk) : bool := Nat.eqb (kind_id a) (kind_id b).

(* -> skip *)
Definition skipped (k : tk) : bool :=
  match k with
  | TBracketComment | TLineComment | TNewline | TSpace => true
  | _ => false
  end.

Definition is_upper (c : char) : bool := ((65 <=? c) && (c <=? 90))%N.
Definition is_lower (c : char) : bool := ((97 <=? c) && (c <=? 122))%N.
Definition is_digit (c : char) : bool := ((48 <=? c) && (c <=? 57))%N.
Definition is_alnum (c : char) : bool := is_upper c || is_lower c || is_digit c.
Definition is_ident_start (c : char) : bool := is_upper c || is_lower c || (c =? 95)%N.
Definition is_ident_char (c : char) : bool := is_alnum c || (c =? 95)%N.
Definition is_sptab (c : char) : bool := (c =? 32)%N || (c =? 9)%N.
Definition is_eol (c : char) : bool := (c =? 13)%N || (c =? 10)%N.

(* any character except space, tab, CR, LF, parentheses, hash, double quote, backslash *)
Definition is_unq_char (c : char) : bool :=
  negb (is_sptab c || is_eol c || (c =? 40)%N || (c =? 41)%N || (c =? 35)%N
        || (c =? 34)%N || (c =? 92)%N).

(* second character of Escape_identity | Escape_encoded | Escape_semicolon *)
Definition esc_ok (c : char) : bool :=
  negb (is_alnum c) || (c =? 116)%N || (c =? 114)%N || (c =? 110)%N.

Definition count_while (p : char -> bool) (x : str) : nat := length (take_while p x).

(* index of the leftmost occurrence of pat *)
Fixpoint find_sub (pat x : str) : option nat :=
  if startswith pat x then Some 0
  else match x with
       | [] => None
       | _ :: r => option_map S (find_sub pat r)
       end.

(* longest prefix made of Unquoted_argument units *)
Fixpoint unq_run (x : str) : nat :=
  match x with
  | [] => 0
  | a :: r =>
      if (a =? 92)%N then
        match r with
        | b :: r' => if esc_ok b then S (S (unq_run r')) else 0
        | [] => 0
        end
      else if is_unq_char a then S (unq_run r) else 0
  end.

Definition m_char (c : char) (x : str) : option nat :=
  match x with
  | a :: _ => if (a =? c)%N then Some 1 else None
  | [] => None
  end.

Definition m_lit (lit x : str) : option nat :=
  if startswith lit x then Some (length lit) else None.

Definition doc_open : str := s"#[[[".
Definition doc_close : str := s"#]]".
Definition module_kw : str := s"@module".

Definition m_docstring (x : str) : option nat :=
  if startswith doc_open x then
    match find_sub doc_close (skipn 4 x) with
    | Some i => Some (4 + i + 3)
    | None => None
    end
  else None.

(* Successive terminators: the rule keeps matching past a terminator exactly when
   the greedy (Space Unquoted_argument)? branch is still alive there, which needs
   the name to contain an escaped hash directly before the two closing brackets. *)
Fixpoint mod_term (fuel from bend : nat) (x : str) : option nat :=
  match fuel with
  | O => None
  | S f =>
      match find_sub doc_close (skipn from x) with
      | None => None
      | Some i =>
          let e := from + i + 3 in
          if Nat.leb e bend then
            match mod_term f e bend x with
            | Some e' => Some e'
            | None => Some e
            end
          else Some e
      end
  end.

Definition m_module_docstring (x : str) : option nat :=
  if startswith doc_open x then
    let r0 := skipn 4 x in
    let k0 := count_while is_sptab r0 in
    let r1 := skipn k0 r0 in
    if startswith module_kw r1 then
      let r2 := skipn 7 r1 in
      let k := count_while is_sptab r2 in
      let bend := match k with O => 0 | S _ => k + unq_run (skipn k r2) end in
      match mod_term (S (length r2)) 0 bend r2 with
      | Some e => Some (4 + k0 + 7 + e)
      | None => None
      end
    else None
  else None.

Definition m_identifier (x : str) : option nat :=
  match x with
  | a :: r => if is_ident_start a then Some (S (count_while is_ident_char r)) else None
  | [] => None
  end.

Definition m_unquoted (x : str) : option nat :=
  match unq_run x with O => None | S n => Some (S n) end.

Definition m_escape (x : str) : option nat :=
  match x with
  | a :: b :: _ => if (a =? 92)%N && esc_ok b then Some 2 else None
  | _ => None
  end.

(* after the opening quote: length up to and including the closing quote *)
Fixpoint quoted_body (x : str) : option nat :=
  match x with
  | [] => None
  | a :: r =>
      if (a =? 34)%N then Some 1
      else if (a =? 92)%N then
        match r with
        | b :: r' => if esc_ok b then option_map (fun n => S (S n)) (quoted_body r') else None
        | [] => None
        end
      else option_map S (quoted_body r)
  end.

Definition m_quoted (x : str) : option nat :=
  match x with
  | a :: r => if (a =? 34)%N then option_map S (quoted_body r) else None
  | [] => None
  end.

(* '[' '='^n '[' .*? ']' '='^n ']' *)
Definition bracket_close (n : nat) : str := [rbr] ++ repeat eqc n ++ [rbr].

Definition m_bracket_arg (x : str) : option nat :=
  match x with
  | a :: r =>
      if (a =? 91)%N then
        let n := count_while (fun c => (c =? 61)%N) r in
        match skipn n r with
        | b :: r' =>
            if (b =? 91)%N then
              match find_sub (bracket_close n) r' with
              | Some i => Some (1 + n + 1 + i + (n + 2))
              | None => None
              end
            else None
        | [] => None
        end
      else None
  | [] => None
  end.

Definition m_bracket_comment (x : str) : option nat :=
  match x with
  | a :: r => if (a =? 35)%N then option_map S (m_bracket_arg r) else None
  | [] => None
  end.

(* the text of a line comment after '#' must not begin  [ =* [  *)
Definition opens_bracket (line : str) : bool :=
  match line with
  | a :: r =>
      (a =? 91)%N &&
      match drop_while (fun c => (c =? 61)%N) r with
      | b :: _ => (b =? 91)%N
      | [] => false
      end
  | [] => false
  end.

(* returns (length, consumed EOF) *)
Definition m_line_comment (x : str) : option (nat * bool) :=
  match x with
  | a :: r =>
      if (a =? 35)%N then
        let line := take_while (fun c => negb (is_eol c)) r in
        if opens_bracket line then None
        else
          match skipn (length line) r with
          | [] => Some (1 + length line, true)
          | c :: r' =>
              if (c =? 13)%N then
                match r' with
                | c2 :: _ => if (c2 =? 10)%N then Some (1 + length line + 2, false)
                             else Some (1 + length line + 1, false)
                | [] => Some (1 + length line + 1, false)
                end
              else Some (1 + length line + 1, false)
          end
      else None
  | [] => None
  end.

Definition m_run (p : char -> bool) (x : str) : option nat :=
  match count_while p x with O => None | S n => Some (S n) end.

Definition noeof (m : option nat) : option (nat * bool) :=
  match m with Some n => Some (n, false) | None => None end.

(* the rules, in grammar order *)
Definition rules : list (tk * (str -> option (nat * bool))) :=
  [ (TLParen, fun x => noeof (m_char 40%N x));
    (TRParen, fun x => noeof (m_char 41%N x));
    (TModuleDoc, fun x => noeof (m_module_docstring x));
    (TDocstring, fun x => noeof (m_docstring x));
    (TDocStart, fun x => noeof (m_lit doc_open x));
    (TBlockEnd, fun x => noeof (m_lit doc_close x));
    (TIdent, fun x => noeof (m_identifier x));
    (TUnquoted, fun x => noeof (m_unquoted x));
    (TEscape, fun x => noeof (m_escape x));
    (TQuoted, fun x => noeof (m_quoted x));
    (TBracketArg, fun x => noeof (m_bracket_arg x));
    (TBracketComment, fun x => noeof (m_bracket_comment x));
    (TLineComment, m_line_comment);
    (TNewline, fun x => noeof (m_run is_eol x));
    (TSpace, fun x => noeof (m_run is_sptab x)) ].

(* strictly better: longer, or same length and consumed EOF where the other did not *)
Definition better (a b : nat * bool) : bool :=
  Nat.ltb (fst b) (fst a) || (Nat.eqb (fst a) (fst b) && snd a && negb (snd b)).

Fixpoint best_of (rs : list (tk * (str -> option (nat * bool)))) (x : str)
         (cur : option (tk * (nat * bool))) : option (tk * (nat * bool)) :=
  match rs with
  | [] => cur
  | (k, m) :: rest =>
      match m x with
      | None => best_of rest x cur
      | Some r =>
          match cur with
          | None => best_of rest x (Some (k, r))
          | Some (_, rc) => if better r rc then best_of rest x (Some (k, r))
                            else best_of rest x cur
          end
      end
  end.

Definition best (x : str) : option (tk * nat) :=
  match best_of rules x None with
  | Some (k, (n, _)) => Some (k, n)
  | None => None
  end.

Definition token := (tk * str)%type.

Inductive lexres :=
| LexOk (pieces : list token)
| LexErr (pos : nat).

(* all pieces, skipped ones included; fuel = number of characters is always enough *)
Fixpoint lex_all_go (fuel : nat) (pos : nat) (x : str) : lexres :=
  match x with
  | [] => LexOk []
  | _ :: _ =>
      match fuel with
      | O => LexErr pos
      | S f =>
          match best x with
          | None => LexErr pos
          | Some (k, n) =>
              match n with
              | O => LexErr pos
              | S _ =>
                  match lex_all_go f (pos + n) (skipn n x) with
                  | LexOk ps => LexOk ((k, firstn n x) :: ps)
                  | LexErr p => LexErr p
                  end
              end
          end
      end
  end.

Definition lex_all (x : str) : lexres := lex_all_go (length x) 0 x.

Definition visible (ps : list token) : list token :=
  filter (fun t => negb (skipped (fst t))) ps.

(* the token stream the parser sees *)
Definition lex (x : str) : lexres :=
  match lex_all x with
  | LexOk ps => LexOk (visible ps)
  | LexErr p => LexErr p
  end.
