(* Model/DocTypes.v -- src/cminx/documentation_types.py: the documentation
   objects and their process() methods, as a pure rendering into Writer.elem. *)
From Coq Require Import String List NArith Bool Arith.
From CMinx Require Import Base.Str Model.Writer.
Import ListNotations.

Inductive vartype := VString | VList | VUnset.

Record method := {
  m_name : str; m_doc : str; m_parent : str;
  m_types : list str; m_params : list str;
  m_ctor : bool; m_macro : bool;
  m_docd : bool   (* ghost: the declaration carried a doccomment; never rendered *) }.

Record attribute := {
  a_name : str; a_doc : str; a_parent : str; a_default : option str;
  a_docd : bool   (* ghost, as m_docd *) }.

Inductive entry :=
| EFunction (is_macro : bool) (name doc : str) (params : list str) (has_kwargs : bool)
| EVariable (name doc : str) (ty : vartype) (value : option str)
| EOption (name doc : str) (value : option str) (help : str)
| EGeneric (name doc : str) (params : list str)
| ECTest (name doc : str) (params : list str)
| ETest (is_section : bool) (name doc : str) (expect_fail : bool)
        (params : list str) (is_macro : bool)
| EClass (name doc : str) (supers : list str) (inner : list str)
         (ctors members : list method) (attrs : list attribute)
| EModule (name doc : str).

Definition interpreted_text (role text : str) : str :=
  s":" ++ role ++ s":`" ++ text ++ s"`".

Definition macro_note : str := s"This is a macro, and so does not introduce a new scope.".
Definition generic_warning : str :=
  s"This is a generic command invocation. It is not a function or macro definition.".
Definition ctest_warning : str :=
  s"This is a CTest test definition, do not call this manually. Use the ""ctest"" program to execute this test.".
Definition test_warning : str := s"This is a CMakeTest test definition, do not call this manually.".
Definition section_warning : str := s"This is a CMakeTest section definition, do not call this manually.".
Definition method_macro_note : str := s"This member is a macro and so does not introduce a new scope".
(* textwrap.dedent of the triple-quoted block in OptionDocumentation.process *)
Definition option_note : str :=
  [nl] ++ s"This variable is a user-editable option," ++ [nl]
  ++ s"meaning it appears within the cache and can be" ++ [nl]
  ++ s"edited on the command line by the :code:`-D` flag." ++ [nl].

Definition signature (name : str) (params : list str) : str :=
  name ++ s"(" ++ join (s" ") params ++ s")".

Definition kwargs_lit : str := s"**kwargs".

(* MethodDocumentation.process: the :param:/:type: fields *)
Fixpoint method_fields (doc : str) (types params : list str) : list elem :=
  match types, params with
  | t :: ts, p :: ps =>
      (if contains (s":param " ++ p ++ s":") doc then [] else [Field (s"param " ++ p) []])
      ++ (if contains (s":type " ++ p ++ s":") doc then [] else [Field (s"type " ++ p) t])
      ++ method_fields doc ts ps
  | _, _ => []
  end.

Definition render_method (m : method) : elem :=
  let pretty := join (s", ") (m_params m)
                ++ (if mem_str (s"args") (m_types m) then s"[, ...]" else []) in
  Dir (s"py:method") [m_name m ++ s"(" ++ pretty ++ s")"] []
      ((if m_macro m then [Dir (s"note") [method_macro_note] [] []] else [])
       ++ [Para (m_doc m)]
       ++ method_fields (m_doc m) (m_types m) (m_params m)).

Definition render_attribute (a : attribute) : elem :=
  Dir (s"py:attribute") [a_name a]
      (match a_default a with Some v => [(s"value", v)] | None => [] end)
      [Para (a_doc a)].

Definition vartype_text (t : vartype) : str :=
  match t with VString => s"str" | VList => s"list" | VUnset => s"UNSET" end.

Definition none_text : str := s"None".

(* DocumentationType.process(writer) for every concrete type; the result is the
   single element appended to the top-level writer *)
Definition render_entry (e : entry) : elem :=
  match e with
  | EFunction is_macro name doc params kw =>
      let ps := if kw then params ++ [kwargs_lit] else params in
      Dir (s"function") [signature name ps] []
          ((if is_macro then [Dir (s"note") [macro_note] [] []] else []) ++ [Para doc])
  | EVariable name doc ty value =>
      Dir (s"data") [name] []
          [Para doc;
           Field (s"Default value") (match value with Some v => v | None => none_text end);
           Field (s"type") (vartype_text ty)]
  | EOption name doc value help =>
      Dir (s"data") [name] []
          [Dir (s"note") [] [] [Para option_note];
           Para doc;
           Field (s"Help text") help;
           Field (s"Default value") (match value with Some v => v | None => s"OFF" end);
           Field (s"type") (s"bool")]
  | EGeneric name doc params =>
      Dir (s"function") [signature name params] []
          [Dir (s"warning") [generic_warning] [] []; Para doc]
  | ECTest name doc params =>
      Dir (s"function") [signature name params] []
          [Dir (s"warning") [ctest_warning] [] []; Para doc]
  | ETest is_section name doc xf _ _ =>
      Dir (s"function") [name ++ s"(" ++ (if xf then s"EXPECTFAIL" else []) ++ s")"] []
          [Dir (s"warning") [if is_section then section_warning else test_warning] [] [];
           Para doc]
  | EClass name doc supers inner ctors members attrs =>
      Dir (s"py:class") [name] []
          ((match supers with
            | [] => []
            | _ :: _ => [Para (s"Bases: "
                               ++ join (s", ") (map (fun x => s":class:`" ++ x ++ s"`") supers)
                               ++ [nl])]
            end)
           ++ [Para doc]
           ++ (match ctors with
               | [] => []
               | _ :: _ => Para (s"**Additional Constructors**") :: map render_method ctors
               end)
           ++ (match members with
               | [] => []
               | _ :: _ => Para (s"**Methods**") :: map render_method members
               end)
           ++ (match attrs with
               | [] => []
               | _ :: _ => Para (s"**Attributes**") :: map render_attribute attrs
               end)
           ++ (match inner with
               | [] => []
               | _ :: _ => [Para (s"**Inner classes**");
                            RList false (map (interpreted_text (s"class")) inner)]
               end))
  | EModule name doc =>
      Dir (s"module") [name] []
          (match doc with [] => [] | _ :: _ => [Para doc] end)
  end.
