(* Model/Naming.v -- title and module name of a page (document_single_file). *)
From Coq Require Import String List NArith Bool Arith.
From CMinx Require Import Base.Str.
Import ListNotations.

Definition cmake_ext : str := s".cmake".

(* re.sub(r"\.cmake$", "", x) for names without line breaks *)
Definition strip_cmake_ext (x : str) : str :=
  if endswith cmake_ext x then firstn (length x - length cmake_ext) x else x.

(* prefix + separator + relative name *)
Definition prefixed (prefix : option str) (sep name : str) : str :=
  match prefix with
  | Some p => if str_eqb name sep then p else p ++ sep ++ name
  | None => name
  end.

(* (title, module name) *)
Definition header_and_module (prefix : option str) (sep : str) (ext_titles ext_modules : bool)
           (name : str) : str * str :=
  let h := prefixed prefix sep name in
  (if ext_titles then h else strip_cmake_ext h,
   if ext_modules then h else strip_cmake_ext h).

(* ".".join(name.split(".")[:-1]) : the file name without its last extension *)
Definition stem (name : str) : str := join [dot] (drop_last (split_on dot name)).

(* "cmake" == name.split(".")[-1].lower()  /  name.lower().endswith(".cmake") *)
Definition is_cmake_name (name : str) : bool := endswith cmake_ext (lower_py name).
