(* Model/Path.v -- the posixpath functions CMinx calls, on strings. *)
From Coq Require Import String List NArith Bool Arith.
From CMinx Require Import Base.Str.
Import ListNotations.

Definition isabs (p : str) : bool :=
  match p with c :: _ => (c =? 47)%N | [] => false end.

(* posixpath.join(a, b) *)
Definition join2 (a b : str) : str :=
  if isabs b then b
  else match a with
       | [] => b
       | _ :: _ => if endswith [slash] a then a ++ b else a ++ [slash] ++ b
       end.

Definition dotdot : str := [dot; dot].

(* the component stack of posixpath.normpath *)
Fixpoint norm_comps (initial : bool) (comps : list str) (acc : list str) : list str :=
  match comps with
  | [] => rev acc
  | c :: r =>
      if str_eqb c [] || str_eqb c [dot] then norm_comps initial r acc
      else if negb (str_eqb c dotdot)
              || (negb initial && match acc with [] => true | _ :: _ => false end)
              || match acc with a :: _ => str_eqb a dotdot | [] => false end
           then norm_comps initial r (c :: acc)
           else match acc with
                | _ :: acc' => norm_comps initial r acc'
                | [] => norm_comps initial r acc
                end
  end.

(* posixpath.normpath *)
Definition normpath (p : str) : str :=
  match p with
  | [] => [dot]
  | _ :: _ =>
      let nslash := if startswith [slash] p
                    then (if startswith [slash; slash] p && negb (startswith [slash; slash; slash] p)
                          then 2 else 1)
                    else 0 in
      let body := join [slash] (norm_comps (negb (Nat.eqb nslash 0)) (split_on slash p) []) in
      let res := repeat slash nslash ++ body in
      match res with [] => [dot] | _ :: _ => res end
  end.

(* posixpath.abspath with an explicit working directory *)
Definition abspath (cwd p : str) : str :=
  normpath (if isabs p then p else join2 cwd p).

(* posixpath.basename: what follows the last slash *)
Definition basename (p : str) : str :=
  match last_opt (split_on slash p) with Some b => b | None => [] end.

(* posixpath.dirname *)
Definition dirname (p : str) : str :=
  let comps := split_on slash p in
  match comps with
  | [] | [_] => []
  | _ =>
      let head := join [slash] (drop_last comps) ++ [slash] in
      if forallb (fun c => (c =? 47)%N) head then head
      else rstrip_set [slash] head
  end.

Fixpoint common_prefix_len (a b : list str) : nat :=
  match a, b with
  | x :: a', y :: b' => if str_eqb x y then S (common_prefix_len a' b') else 0
  | _, _ => 0
  end.

Definition nonempty_comps (p : str) : list str :=
  filter (fun c => negb (str_eqb c [])) (split_on slash p).

(* posixpath.relpath(path, start) for absolute, normalised arguments *)
Definition relpath_abs (path start : str) : str :=
  let sl := nonempty_comps start in
  let pl := nonempty_comps path in
  let i := common_prefix_len sl pl in
  let rel := repeat dotdot (length sl - i) ++ skipn i pl in
  match rel with
  | [] => [dot]
  | _ :: _ => join [slash] rel
  end.

(* lexicographic order on code points: Python's str comparison *)
Fixpoint str_leb (a b : str) : bool :=
  match a, b with
  | [], _ => true
  | _ :: _, [] => false
  | x :: a', y :: b' => if (x <? y)%N then true else if (y <? x)%N then false else str_leb a' b'
  end.

Fixpoint insert_sorted {A} (key : A -> str) (x : A) (l : list A) : list A :=
  match l with
  | [] => [x]
  | y :: r => if str_leb (key x) (key y) then x :: l else y :: insert_sorted key x r
  end.

(* sorted(l, key) -- stable insertion sort *)
Definition sort_by {A} (key : A -> str) (l : list A) : list A :=
  fold_right (insert_sorted key) [] l.
