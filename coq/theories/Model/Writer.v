(* Model/Writer.v -- src/cminx/rstwriter.py.
   An RST document is a tree of elements; RSTWriter/Directive objects are the
   Root/Sect/Dir nodes; to_text is elem_text.  The public API is modelled as a
   state machine over operations addressed by handles (paths into the tree). *)
From Coq Require Import String List NArith Bool Arith.
From CMinx Require Import Base.Str.
Import ListNotations.

Inductive elem :=
| Para (text : str)                                   (* Paragraph *)
| Field (name text : str)                             (* Field *)
| RList (enumerated : bool) (items : list str)        (* RSTList *)
| DocTest (line expected : str)                       (* DocTest *)
| Dir (name : str) (args : list str) (opts : list (str * str)) (body : list elem)  (* Directive *)
| Sect (title : str) (body : list elem).              (* nested RSTWriter from section() *)

(* get_indents(num): three spaces per level *)
Definition indent_unit : nat := 3.
Definition indent (d : nat) : str := spaces (indent_unit * d).

(* Heading.build_heading_string *)
Definition heading_text (hc title : str) : str :=
  let bar := repeat_str (length title) hc in
  [nl] ++ bar ++ [nl] ++ title ++ [nl] ++ bar.

(* Paragraph.build_text_string *)
Definition para_text (d : nat) (text : str) : str :=
  join [nl] (map (fun l => indent d ++ l) (split_on nl text)).

(* Field.build_field_string *)
Definition field_text (d : nat) (name text : str) : str :=
  [nl] ++ indent d ++ s":" ++ name ++ s": " ++ text.

Fixpoint enum_items (d : nat) (i : nat) (items : list str) : str :=
  match items with
  | [] => []
  | x :: r => indent d ++ dec_of_nat i ++ s". " ++ x ++ [nl] ++ enum_items d (S i) r
  end.
Fixpoint bullet_items (d : nat) (items : list str) : str :=
  match items with
  | [] => []
  | x :: r => indent d ++ s"* " ++ x ++ [nl] ++ bullet_items d r
  end.
(* RSTList.build_list_string *)
Definition list_text (d : nat) (enumerated : bool) (items : list str) : str :=
  [nl] ++ (if enumerated then enum_items d 1 items else bullet_items d items).

(* DocTest.build_doctest_string *)
Definition doctest_text (d : nat) (line expected : str) : str :=
  [nl] ++ indent d ++ s">>> " ++ line ++ [nl] ++ expected ++ [nl].

(* DirectiveHeading.build_heading_string; d = depth of the parent writer *)
Definition dir_heading (d : nat) (name : str) (args : list str) : str :=
  [nl] ++ indent d ++ s".. " ++ name ++ s":: " ++ join (s",") args.

(* Option.build_option_string; d = depth of the directive's own content *)
Definition option_text (d : nat) (o : str * str) : str :=
  indent d ++ s":" ++ fst o ++ s": " ++ snd o.

Definition header_char (hdrs : list str) (lvl : nat) : str := nth lvl hdrs [].

(* str(element):  lvl = section_level of the enclosing writer, d = its indent *)
Fixpoint elem_text (hdrs : list str) (lvl d : nat) (e : elem) : str :=
  match e with
  | Para t => para_text d t
  | Field n t => field_text d n t
  | RList en items => list_text d en items
  | DocTest l x => doctest_text d l x
  | Dir name args opts body =>
      dir_heading d name args ++ [nl]
      ++ concat (map (fun o => option_text (S d) o ++ [nl]) opts)
      ++ (match body with [] => [] | _ :: _ => [nl] end)
      ++ concat (map (fun x => elem_text hdrs 0 (S d) x ++ [nl]) body)
  | Sect title body =>
      heading_text (header_char hdrs (S lvl)) title ++ [nl]
      ++ concat (map (fun x => elem_text hdrs (S lvl) 0 x ++ [nl]) body)
  end.

Definition body_text (hdrs : list str) (lvl d : nat) (body : list elem) : str :=
  concat (map (fun x => elem_text hdrs lvl d x ++ [nl]) body).

(* RSTWriter.to_text of a top-level writer *)
Definition doc_text (hdrs : list str) (title : str) (body : list elem) : str :=
  heading_text (header_char hdrs 0) title ++ [nl] ++ body_text hdrs 0 0 body.

(* ------------------------------------------------------------------ *)
(* The writer API as a state machine.                                  *)

Record wstate := { w_title : str; w_body : list elem }.

Definition handle := list nat.  (* path of child indices; [] = the top writer *)

Inductive wop :=
| OText (h : handle) (t : str)
| OField (h : handle) (n t : str)
| OBullets (h : handle) (items : list str)
| OEnum (h : handle) (items : list str)
| ODocTest (h : handle) (l x : str)
| ODirective (h : handle) (name : str) (args : list str)
| OSection (h : handle) (title : str)
| OOption (h : handle) (n v : str)
| OSetTitle (h : handle) (t : str)
| OClear (h : handle)
| OToText (h : handle).

Inductive wout :=
| WNone
| WHandle (h : handle)
| WText (t : str)
| WError.

(* apply f to the node at path p below a body list; None = bad handle *)
Fixpoint upd_in_body (p : list nat) (i : nat) (f : elem -> option elem) (b : list elem)
  {struct p} : option (list elem) :=
  match nth_error b i with
  | None => None
  | Some e =>
      match p with
      | [] => match f e with
              | Some e' => Some (update_nth i (fun _ => e') b)
              | None => None
              end
      | j :: p' =>
          match e with
          | Dir n a o body =>
              match upd_in_body p' j f body with
              | Some body' => Some (update_nth i (fun _ => Dir n a o body') b)
              | None => None
              end
          | Sect t body =>
              match upd_in_body p' j f body with
              | Some body' => Some (update_nth i (fun _ => Sect t body') b)
              | None => None
              end
          | _ => None
          end
      end
  end.

Definition upd_node (h : handle) (f : elem -> option elem) (st : wstate) : option wstate :=
  match h with
  | [] => match f (Sect (w_title st) (w_body st)) with
          | Some (Sect t b) => Some {| w_title := t; w_body := b |}
          | _ => None
          end
  | i :: p => match upd_in_body p i f (w_body st) with
              | Some b => Some {| w_title := w_title st; w_body := b |}
              | None => None
              end
  end.

Definition append_child (x : elem) (e : elem) : option elem :=
  match e with
  | Dir n a o b => Some (Dir n a o (b ++ [x]))
  | Sect t b => Some (Sect t (b ++ [x]))
  | _ => None
  end.

(* the node at a handle together with the (section level, indent) of the writer
   that encloses it *)
Fixpoint find_in_body (p : list nat) (i : nat) (lvl d : nat) (b : list elem)
  {struct p} : option (elem * nat * nat) :=
  match nth_error b i with
  | None => None
  | Some e =>
      match p with
      | [] => Some (e, lvl, d)
      | j :: p' =>
          match e with
          | Dir _ _ _ body => find_in_body p' j 0 (S d) body
          | Sect _ body => find_in_body p' j (S lvl) 0 body
          | _ => None
          end
      end
  end.

Definition children_count (e : elem) : option nat :=
  match e with
  | Dir _ _ _ b => Some (length b)
  | Sect _ b => Some (length b)
  | _ => None
  end.

Definition node_at (h : handle) (st : wstate) : option (elem * nat * nat) :=
  match h with
  | [] => None
  | i :: p => find_in_body p i 0 0 (w_body st)
  end.

Definition count_at (h : handle) (st : wstate) : option nat :=
  match h with
  | [] => Some (length (w_body st))
  | _ => match node_at h st with
         | Some (e, _, _) => children_count e
         | None => None
         end
  end.

(* section level the writer at handle h has itself *)
Definition own_level (h : handle) (st : wstate) : option nat :=
  match h with
  | [] => Some 0
  | _ => match node_at h st with
         | Some (Dir _ _ _ _, _, _) => Some 0
         | Some (Sect _ _, lvl, _) => Some (S lvl)
         | _ => None
         end
  end.

Definition wstep (hdrs : list str) (st : wstate) (o : wop) : wstate * wout :=
  let app h x :=
    match upd_node h (append_child x) st with
    | Some st' => (st', WNone)
    | None => (st, WError)
    end in
  match o with
  | OText h t => app h (Para t)
  | OField h n t => app h (Field n t)
  | OBullets h items => app h (RList false items)
  | OEnum h items => app h (RList true items)
  | ODocTest h l x => app h (DocTest l x)
  | ODirective h name args =>
      match count_at h st, upd_node h (append_child (Dir name args [] [])) st with
      | Some n, Some st' => (st', WHandle (h ++ [n]))
      | _, _ => (st, WError)
      end
  | OSection h title =>
      match own_level h st, count_at h st with
      | Some lvl, Some n =>
          (* heading_level_chars[section_level] raises IndexError past the end *)
          if Nat.ltb (S lvl) (length hdrs) then
            match upd_node h (append_child (Sect title [])) st with
            | Some st' => (st', WHandle (h ++ [n]))
            | None => (st, WError)
            end
          else (st, WError)
      | _, _ => (st, WError)
      end
  | OOption h n v =>
      match h with
      | [] => (st, WError)      (* RSTWriter has no option() *)
      | _ =>
          match upd_node h (fun e => match e with
                                     | Dir nm a o b => Some (Dir nm a (o ++ [(n, v)]) b)
                                     | _ => None
                                     end) st with
          | Some st' => (st', WNone)
          | None => (st, WError)
          end
      end
  | OSetTitle h t =>
      match upd_node h (fun e => match e with
                                 | Dir _ a o b => Some (Dir t a o b)
                                 | Sect _ b => Some (Sect t b)
                                 | _ => None
                                 end) st with
      | Some st' => (st', WNone)
      | None => (st, WError)
      end
  | OClear h =>
      match upd_node h (fun e => match e with
                                 | Dir n a o _ => Some (Dir n a o [])
                                 | Sect t _ => Some (Sect t [])
                                 | _ => None
                                 end) st with
      | Some st' => (st', WNone)
      | None => (st, WError)
      end
  | OToText h =>
      match h with
      | [] => (st, WText (doc_text hdrs (w_title st) (w_body st)))
      | _ => match node_at h st with
             | Some (Dir n a o b, lvl, d) => (st, WText (elem_text hdrs lvl d (Dir n a o b)))
             | Some (Sect t b, lvl, d) => (st, WText (elem_text hdrs lvl d (Sect t b)))
             | _ => (st, WError)
             end
      end
  end.

Fixpoint wrun (hdrs : list str) (st : wstate) (ops : list wop) : wstate * list wout :=
  match ops with
  | [] => (st, [])
  | o :: r => let '(st', out) := wstep hdrs st o in
              let '(st'', outs) := wrun hdrs st' r in
              (st'', out :: outs)
  end.

Definition winit (title : str) : wstate := {| w_title := title; w_body := [] |}.
