(* Model/Parser.v -- the parser rules of CMake.g4 as a recogniser + tree builder over
   the visible token stream.  None = the token sequence is not in the language
   (ANTLR reports a syntax error; the implementation then fails, see documenter.py). *)
From Coq Require Import String List NArith Bool Arith.
From CMinx Require Import Base.Str Model.Lexer.
Import ListNotations.

Inductive arg :=
| ASingle (k : tk) (text : str)         (* single_argument *)
| ACompound (args : list arg).          (* compound_argument *)

Record cmd := { c_name : str; c_args : list arg }.   (* command_invocation *)

Inductive element :=
| EDocCmd (doc : str) (c : cmd)         (* documented_command *)
| ECmd (c : cmd)                        (* command_invocation *)
| EDangling (doc : str).                (* bracket_doccomment on its own *)

Record cfile := { f_module : option str; f_elems : list element }.

Definition is_single_kind (k : tk) : bool :=
  match k with
  | TIdent | TUnquoted | TBracketArg | TQuoted => true
  | _ => false
  end.

Inductive pstate :=
| PTop (doc : option str)
| PName (doc : option str) (name : str)
| PArgs (doc : option str) (name : str) (stack : list (list arg)) (cur : list arg).

Definition close_cmd (doc : option str) (name : str) (cur : list arg) : element :=
  let c := {| c_name := name; c_args := rev cur |} in
  match doc with
  | Some d => EDocCmd d c
  | None => ECmd c
  end.

Fixpoint parse_go (ts : list token) (st : pstate) (acc : list element) : option (list element) :=
  match ts with
  | [] =>
      match st with
      | PTop None => Some (rev acc)
      | PTop (Some d) => Some (rev (EDangling d :: acc))
      | _ => None
      end
  | (k, t) :: r =>
      match st with
      | PTop doc =>
          match k with
          | TDocstring =>
              parse_go r (PTop (Some t))
                       (match doc with Some d => EDangling d :: acc | None => acc end)
          | TIdent => parse_go r (PName doc t) acc
          | _ => None
          end
      | PName doc name =>
          match k with
          | TLParen => parse_go r (PArgs doc name [] []) acc
          | _ => None
          end
      | PArgs doc name stack cur =>
          match k with
          | TLParen => parse_go r (PArgs doc name (cur :: stack) []) acc
          | TRParen =>
              match stack with
              | [] => parse_go r (PTop None) (close_cmd doc name cur :: acc)
              | up :: stack' => parse_go r (PArgs doc name stack' (ACompound (rev cur) :: up)) acc
              end
          | _ => if is_single_kind k
                 then parse_go r (PArgs doc name stack (ASingle k t :: cur)) acc
                 else None
          end
      end
  end.

Definition parse (ts : list token) : option cfile :=
  match ts with
  | (TModuleDoc, t) :: r =>
      match parse_go r (PTop None) [] with
      | Some es => Some {| f_module := Some t; f_elems := es |}
      | None => None
      end
  | _ =>
      match parse_go ts (PTop None) [] with
      | Some es => Some {| f_module := None; f_elems := es |}
      | None => None
      end
  end.

(* ctx.getText(): concatenation of the token texts below the node *)
Fixpoint arg_text (a : arg) : str :=
  match a with
  | ASingle _ t => t
  | ACompound l => [lpar] ++ concat (map arg_text l) ++ [rpar]
  end.

(* ctx.single_argument(): the direct single_argument children, in order *)
Fixpoint singles_of (l : list arg) : list str :=
  match l with
  | [] => []
  | ASingle _ t :: r => t :: singles_of r
  | ACompound _ :: r => singles_of r
  end.

(* ctx.compound_argument(): the direct compound_argument children *)
Fixpoint compounds_of (l : list arg) : list str :=
  match l with
  | [] => []
  | ASingle _ _ :: r => compounds_of r
  | ACompound x :: r => arg_text (ACompound x) :: compounds_of r
  end.

Definition singles (c : cmd) : list str := singles_of (c_args c).
Definition compounds (c : cmd) : list str := compounds_of (c_args c).
